"""C05 - native kernels never touch memory outside their buffers.

Runs on the ASan/UBSan build of the extension modules (bin/build-ext asan), inside the stock
interpreter with libclang_rt.asan preloaded.  Every entry of the catalogue below is a public
Python entry point that reaches a compiled kernel.  For each entry the space
   (array length / shape) x (value class) x (option vectors with <= 2 non-default coordinates)
is enumerated completely.  Oracle: the call returns or raises a Python exception - no
sanitizer report, no abnormal exit, no hang (per-case timer).  Each unit runs in a supervised
child; a death is attributed to the case announced last and the unit is re-run without it.
"""
import itertools, math, os, re
import numpy as np

ID = "C05"
SUPERVISED = True
MAX_CRASHES = 1000      # crashing cases tolerated per unit before it is abandoned (the python -O variant of the raw calls has ~150)
CASE_TIMEOUT = 25.0
CONFIRM = True
REPLAY_TIMEOUT = 120
RULE = ("catalogue of public entry points reaching a compiled kernel (dutils.aggregate/flathomogen/var2h, qualitycontrol.islinear, "
        "signatures.eckhardt/goue, metrics.crps/dscore/anderson_darling_test/alpha/pit, armodels.armodel_sim/residual, "
        "sutils.pareto_front/lstsq leverage, Grid.coord2cell/cell2coord/cell2rowcol/neighbours/slice/clip/cells_inside_polygon, "
        "Catchment.upstream/downstream/delineate_area/delineate_boundary/compute_flowpathlengths/intersect, accumulate, slope, voronoi, "
        "delineate_river, gutils.points_inside_polygon, c-module date helpers and combi, raw Cython functions with mismatched "
        "buffers) x array lengths 0..5 (+2 seed-chosen <= 300) x value class {finite, NaN, +inf, -inf, negative, 1e300, mixed} "
        "crossed fully x scalar options at and beyond their documented range with <= 2 coordinates changed from the default call. "
        "Executed under AddressSanitizer+UBSan (integer-divide-by-zero, signed-integer-overflow, bounds, null, shift, alignment). "
        "A case is one call; non-trivial = the call reached a compiled function (counted by wrapping the c-module attributes).")
ASSUMPTIONS = [
    "float-to-integer conversion overflow ((long long)(x/csz) with huge x) and float division by zero are not in the property's list and are compiled out (-fno-sanitize=float-cast-overflow,float-divide-by-zero)",
    "numpy allocates exact-size malloc blocks under PYTHONMALLOC=malloc (1 byte for empty arrays) so ASan redzones are tight around every buffer",
    "Cython wrapper C files are not re-translated from .pyx (no Cython in the image)",
    "a Python exception of any type is an acceptable answer to input the kernels cannot handle",
]
LEVEL_NOTE = ("Trusted: clang 14 ASan/UBSan instrumentation of the kernels and the Cython wrapper C; the supervised-child "
              "protocol (death or timeout attributed to the announced case); lengths beyond the bound are not covered.")
TECHNIQUE = "bounded exhaustive enumeration of calls (lengths x value classes x deviation-bounded options) against sanitizer-instrumented kernels rebuilt from the working tree"

CLASSES = ["finite", "nan", "pinf", "ninf", "negative", "huge", "mixed"]


def bound_text(tier, seed):
    if tier == "thorough":
        return ("lengths 0..8 + 3 seed-chosen (<= 1100), 7 value classes, options <= 3 deviations; "
                "grids 1x1,1x3,3x1,2x2,3x3 x 7 flow patterns")
    return ("lengths 0..5 + 2 seed-chosen (<= 40), 7 value classes, options <= 2 deviations; "
            "grids 1x1,1x3,3x1,2x2,3x3 x 7 flow patterns")


def big_lengths(seed, tier):
    a = 6 + (seed * 7 + 3) % 30
    b = 41 + (seed * 53 + 11) % 250 if tier != "quick" else 17 + (seed * 5) % 20
    return [a, b]


def lengths(seed, tier):
    if tier == "thorough":
        return [0, 1, 2, 3, 4, 5, 6, 7, 8] + big_lengths(seed, tier) + [1000 + 7 * (seed % 13)]
    return [0, 1, 2, 3, 4, 5] + big_lengths(seed, tier)


def arr(n, cls, shift=0):
    n = int(n)
    base = np.array([((i * 7 + shift) % 5) + 0.5 for i in range(n)], dtype=np.float64)
    if cls == "finite":
        return base
    if cls == "nan":
        return np.full(n, np.nan)
    if cls == "pinf":
        return np.full(n, np.inf)
    if cls == "ninf":
        return np.full(n, -np.inf)
    if cls == "negative":
        return -base
    if cls == "huge":
        return base * 1e300
    if cls == "mixed":
        pat = [1.5, np.nan, -2.0, np.inf, 0.0, -np.inf, 1e300, 3.25]
        return np.array([pat[(i + shift) % len(pat)] for i in range(n)], dtype=np.float64)
    if cls == "unit":
        return (base + 0.25) / 6.0
    raise ValueError(cls)


def arr2(n, m, cls, shift=0):
    return arr(n * m, cls, shift).reshape(n, m)


_CUR_TIER = ["quick"]


def devs(defaults, alts, k=2):
    """all option dicts differing from `defaults` in <= k coordinates (k + 1 in the thorough tier);
    alts: name -> list of alternative values"""
    if _CUR_TIER[0] == "thorough":
        k = k + 1
    names = sorted(alts)
    yield dict(defaults)
    for r in range(1, k + 1):
        for combo in itertools.combinations(names, r):
            for vals in itertools.product(*[alts[c] for c in combo]):
                d = dict(defaults)
                for c, v in zip(combo, vals):
                    d[c] = v
                yield d


# ---------------------------------------------------------------------------------------
# entries: name -> (space generator(seed, tier) yielding JSON-able param dicts, runner(params))

ENTRIES = {}


def entry(name):
    def deco(cls):
        ENTRIES[name] = cls
        return cls
    return deco


def ncls_space(seed, tier, defaults=None, alts=None, k=2, ns=None):
    for n in (ns if ns is not None else lengths(seed, tier)):
        for cls in CLASSES:
            for o in devs(defaults or {}, alts or {}, k):
                yield dict(o, n=n, cls=cls)


def idx_for(n, kind):
    if kind == "runs2":
        return np.array([i // 2 for i in range(n)], dtype=np.int64)
    if kind == "const":
        return np.zeros(n, dtype=np.int64)
    if kind == "incr":
        return np.arange(n, dtype=np.int64)
    if kind == "decr":
        return np.arange(n, dtype=np.int64)[::-1].copy()
    if kind == "big":
        return np.array([2 ** 31 - 1 - (n - 1 - i) for i in range(n)], dtype=np.int64)
    if kind == "short":
        return np.arange(max(n - 1, 0), dtype=np.int64)
    raise ValueError(kind)


@entry("dutils.aggregate")
class E_aggregate:
    @staticmethod
    def space(seed, tier):
        return ncls_space(seed, tier, {"oper": 0, "maxnan": 0, "index": "runs2"},
                          {"oper": [1, 2, 3, -1, 4, 2 ** 31 - 1], "maxnan": [-1, 1, 10 ** 6, -2 ** 31],
                           "index": ["const", "incr", "decr", "big", "short"]})

    @staticmethod
    def run(p):
        from hydrodiy.data import dutils
        dutils.aggregate(idx_for(p["n"], p["index"]), arr(p["n"], p["cls"]), p["oper"], p["maxnan"])


@entry("dutils.flathomogen")
class E_flathomogen:
    @staticmethod
    def space(seed, tier):
        return ncls_space(seed, tier, {"maxnan": 0, "index": "runs2"},
                          {"maxnan": [-1, 1, 10 ** 6], "index": ["const", "incr", "decr", "big", "short"]})

    @staticmethod
    def run(p):
        from hydrodiy.data import dutils
        dutils.flathomogen(idx_for(p["n"], p["index"]), arr(p["n"], p["cls"]), p["maxnan"])


@entry("signatures.goue")
class E_goue:
    @staticmethod
    def space(seed, tier):
        return ncls_space(seed, tier, {"index": "runs2"}, {"index": ["const", "incr", "decr"]})

    @staticmethod
    def run(p):
        from hydrodiy.data import signatures
        signatures.goue(idx_for(p["n"], p["index"]), arr(p["n"], p["cls"]))


@entry("qualitycontrol.islinear")
class E_islinear:
    @staticmethod
    def space(seed, tier):
        return ncls_space(seed, tier, {"npoints": 3, "tol": 1e-6, "thresh": 0.0, "data": "cls"},
                          {"npoints": [1, 2, 0, -1, 10 ** 6], "tol": [1e-10, 1e300, 0.5], "thresh": [-1e300, 1e300, float("nan")],
                           "data": ["linear", "const", "2d"]})

    @staticmethod
    def run(p):
        from hydrodiy.data import qualitycontrol
        n = p["n"]
        if p["data"] == "cls":
            d = arr(n, p["cls"])
        elif p["data"] == "linear":
            d = np.arange(n, dtype=np.float64) + 1
        elif p["data"] == "const":
            d = np.ones(n)
        else:
            d = arr2(n, 2, p["cls"])
        qualitycontrol.islinear(d, p["npoints"], p["tol"], p["thresh"])


@entry("signatures.eckhardt")
class E_eckhardt:
    @staticmethod
    def space(seed, tier):
        return ncls_space(seed, tier, {"thresh": 0.95, "tau": 20.0, "BFI_max": 0.8, "timestep_type": 1},
                          {"thresh": [0.0, 1.0, -0.1, 1.1, float("nan")], "tau": [0.0, -1.0, 1e-300, 1e300, float("nan")],
                           "BFI_max": [0.0, 1.0, -0.1, 1.5], "timestep_type": [0, 2, -1]})

    @staticmethod
    def run(p):
        from hydrodiy.data import signatures
        signatures.eckhardt(arr(p["n"], p["cls"]), p["thresh"], p["tau"], p["BFI_max"], p["timestep_type"])


@entry("dutils.var2h")
class E_var2h:
    @staticmethod
    def space(seed, tier):
        ns = [0, 1, 2, 3, 4, 5] + big_lengths(seed, tier)[:1]
        return ncls_space(seed, tier, {"P": 3600, "G": 5 * 86400, "rain": False, "stamps": "20min", "unit": "ns"},
                          {"P": [1800, 900, 0, -3600], "G": [3600, 3599, 2 ** 31 - 1], "rain": [True],
                           "stamps": ["same", "1s", "3h", "decr", "within1h", "on-hour-1h", "1000d", "71y-daily"],
                           "unit": ["s", "us"]}, ns=ns)

    @staticmethod
    def run(p):
        import pandas as pd
        from hydrodiy.data import dutils
        n = p["n"]
        t0 = 978307200
        st = p["stamps"]
        if st == "20min":
            secs = [t0 + 1200 * i for i in range(n)]
        elif st == "same":
            secs = [t0] * n
        elif st == "1s":
            secs = [t0 + i for i in range(n)]
        elif st == "3h":
            secs = [t0 + 10800 * i for i in range(n)]
        elif st == "decr":
            secs = [t0 + 10800 * (n - i) for i in range(n)]
        elif st == "within1h":
            secs = [t0 + (3599 * i) // max(n - 1, 1) for i in range(n)]
        elif st == "on-hour-1h":
            secs = [t0 + (3600 * i) // max(n - 1, 1) for i in range(n)]
        elif st == "71y-daily":
            # period index * period length crosses 2**31 (the array length n is ignored: 25933 daily stamps)
            n = 25933
            secs = [t0 + 86400 * i for i in range(n)]
        else:
            secs = [t0 + 86400000 * i for i in range(n)]
        idx = pd.DatetimeIndex(np.array(secs, dtype=np.int64).astype("datetime64[s]").astype("datetime64[%s]" % p["unit"]))
        se = pd.Series(arr(n, p["cls"]), index=idx)
        dutils.var2h(se, nbsec_per_period=p["P"], maxgapsec=p["G"], rainfall=p["rain"])


@entry("c_data.var2h.raw")
class E_var2h_raw:
    """the compiled function itself, as the property's observe_at names it"""
    @staticmethod
    def space(seed, tier):
        for n in (0, 1, 2, 3, 5):
            for nh in (0, 1, 2, 5):
                for hs in ("before", "first", "mid", "last", "after"):
                    for cls in ("finite", "nan", "mixed"):
                        yield {"n": n, "nh": nh, "hs": hs, "cls": cls}

    @staticmethod
    def run(p):
        import c_hydrodiy_data
        n = p["n"]
        varsec = np.array([1000 + 1200 * i for i in range(n)], dtype=np.int64)
        hs = {"before": 0, "first": 1000, "mid": 1000 + 600 * max(n - 1, 0), "last": 1000 + 1200 * max(n - 1, 0),
              "after": 10 ** 9}[p["hs"]]
        c_hydrodiy_data.var2h(432000, hs, 3600, 0, 0, varsec, arr(n, p["cls"]), np.zeros(p["nh"]))


@entry("c_data.dates")
class E_dates:
    @staticmethod
    def space(seed, tier):
        ints = [0, 1, 2, 12, 13, 28, 29, 30, 31, 32, -1, 1900, 2000, 2024, 2 ** 31 - 1, -2 ** 31]
        for f in ("isleapyear", "daysinmonth", "dayofyear", "combi"):
            for a in ints:
                for b in ints:
                    yield {"f": f, "a": a, "b": b}
        dates = [[2000, 1, 31], [2000, 2, 29], [2001, 2, 29], [2000, 12, 31], [2000, 13, 1], [2000, 0, 1], [2000, 1, 0],
                 [2000, 1, 32], [2 ** 31 - 1, 12, 31], [-2 ** 31, 1, 1], [2000, -5, 10], [2000, 2 ** 31 - 1, 1], [0, 0, 0]]
        for f in ("add1day", "add1month"):
            for d in dates:
                for ln in (3, 2, 0, 4):
                    yield {"f": f, "d": d, "len": ln}
        for d1 in dates:
            for d2 in dates[:5]:
                yield {"f": "comparedates", "d": d1, "d2": d2, "len": 3}
        yield {"f": "comparedates", "d": dates[0], "d2": dates[1], "len": 2}
        for day in [20000131.0, 20000229.0, 20010229.0, 0.0, -1.0, 1e300, -1e300, float("nan"), float("inf"), 99999999.0, 20001301.0, 1e10, 2.2e9 * 1e4]:
            for ln in (3, 2, 0):
                yield {"f": "getdate", "day": day, "len": ln}

    @staticmethod
    def run(p):
        import c_hydrodiy_data as c
        f = p["f"]
        if f == "isleapyear":
            c.isleapyear(p["a"])
        elif f == "daysinmonth":
            c.daysinmonth(p["a"], p["b"])
        elif f == "dayofyear":
            c.dayofyear(p["a"], p["b"])
        elif f == "combi":
            c.combi(p["a"], p["b"])
        elif f in ("add1day", "add1month"):
            d = np.array((p["d"] + [1])[:p["len"]], dtype=np.int32)
            getattr(c, f)(d)
        elif f == "comparedates":
            c.comparedates(np.array(p["d"][:p["len"]], dtype=np.int32), np.array(p["d2"], dtype=np.int32))
        elif f == "getdate":
            c.getdate(p["day"], np.zeros(p["len"], dtype=np.int32))


@entry("metrics.crps")
class E_crps:
    @staticmethod
    def space(seed, tier):
        for n in [0, 1, 2, 3, 5] + big_lengths(seed, tier)[:1]:
            for m in (0, 1, 2, 3, 7):
                for cls in CLASSES:
                    for obs in ("cls", "finite", "short", "nan"):
                        yield {"n": n, "m": m, "cls": cls, "obs": obs}

    @staticmethod
    def run(p):
        from hydrodiy.stat import metrics
        n, m = p["n"], p["m"]
        ens = arr2(n, m, p["cls"], 1)
        obs = {"cls": arr(n, p["cls"]), "finite": arr(n, "finite"), "short": arr(max(n - 1, 0), "finite"), "nan": arr(n, "nan")}[p["obs"]]
        metrics.crps(obs, ens)


@entry("metrics.dscore")
class E_dscore:
    @staticmethod
    def space(seed, tier):
        for n in [0, 1, 2, 3, 5] + big_lengths(seed, tier)[:1]:
            for m in (0, 1, 2, 3):
                for cls in CLASSES + ["ties"]:
                    for eps in (1e-6, 0.0, -1.0, 1e300, float("nan")):
                        yield {"n": n, "m": m, "cls": cls, "eps": eps}

    @staticmethod
    def run(p):
        from hydrodiy.stat import metrics
        n, m = p["n"], p["m"]
        if p["cls"] == "ties":
            sim = np.ones((n, m))
            obs = np.ones(n)
        else:
            sim = arr2(n, m, p["cls"], 1)
            obs = arr(n, p["cls"])
        metrics.dscore(obs, sim, p["eps"])


@entry("metrics.pit_alpha_ad")
class E_pit:
    @staticmethod
    def space(seed, tier):
        for n in [0, 1, 2, 3, 5] + big_lengths(seed, tier)[:1]:
            for cls in CLASSES + ["unit", "unit01"]:
                yield {"f": "ad", "n": n, "cls": cls}
                yield {"f": "cvm", "n": n, "cls": cls}
            for m in (0, 1, 2, 5):
                for cls in CLASSES:
                    for typ in ("CV", "KS", "AD"):
                        yield {"f": "alpha", "n": n, "m": m, "cls": cls, "type": typ}
                    yield {"f": "pit", "n": n, "m": m, "cls": cls}

    @staticmethod
    def run(p):
        from hydrodiy.stat import metrics
        f, n = p["f"], p["n"]
        if f in ("ad", "cvm"):
            if p["cls"] == "unit01":
                d = np.array(([0.0, 1.0, 0.5] * n)[:n])
            else:
                d = arr(n, p["cls"])
            if f == "ad":
                metrics.anderson_darling_test(d)
            else:
                metrics.cramer_von_mises_test(d)
        else:
            np.random.seed(3)
            obs = arr(n, p["cls"])
            ens = arr2(n, p["m"], p["cls"], 2)
            if f == "alpha":
                metrics.alpha(obs, ens, type=p["type"])
            else:
                metrics.pit(obs, ens)


@entry("armodels")
class E_ar:
    @staticmethod
    def space(seed, tier):
        for f in ("sim", "residual"):
            for order in range(0, 12):
                for n in [0, 1, 2, 3, 5, 12] + big_lengths(seed, tier)[:1]:
                    for cls in ("finite", "nan", "mixed", "huge"):
                        for o in devs({"mean": 0.0, "ini": "none", "pcls": "small"},
                                      {"mean": [float("nan"), 1e300], "ini": [0.0, float("nan"), float("inf")], "pcls": ["nan", "huge", "ones"]}, 2):
                            yield dict(o, f=f, order=order, n=n, cls=cls)

    @staticmethod
    def run(p):
        from hydrodiy.stat import armodels
        k = p["order"]
        params = {"small": np.array([0.5 / (i + 1) for i in range(k)]), "nan": np.full(k, np.nan),
                  "huge": np.full(k, 1e300), "ones": np.ones(k)}[p["pcls"]]
        ini = None if p["ini"] == "none" else p["ini"]
        x = arr(p["n"], p["cls"])
        if p["f"] == "sim":
            armodels.armodel_sim(params, x, p["mean"], ini)
        else:
            armodels.armodel_residual(params, x, p["mean"], ini)


@entry("sutils.pareto_front")
class E_pareto:
    @staticmethod
    def space(seed, tier):
        for n in [0, 1, 2, 3, 5] + big_lengths(seed, tier)[:1]:
            for d in (0, 1, 2, 3):
                for cls in CLASSES:
                    for orient in (1, -1, 0, 2):
                        for shape in ("2d", "1d", "F"):
                            yield {"n": n, "d": d, "cls": cls, "orient": orient, "shape": shape}

    @staticmethod
    def run(p):
        from hydrodiy.stat import sutils
        x = arr2(p["n"], p["d"], p["cls"])
        if p["shape"] == "1d":
            x = x.ravel()
        elif p["shape"] == "F":
            x = np.asfortranarray(x)
        sutils.pareto_front(x, p["orient"])


@entry("sutils.lstsq")
class E_lstsq:
    @staticmethod
    def space(seed, tier):
        for n in (0, 1, 2, 3, 5, 9):
            for d in (0, 1, 2, 3):
                for cls in ("finite", "nan", "mixed", "huge"):
                    yield {"n": n, "d": d, "cls": cls, "f": "lstsq"}
                    yield {"n": n, "d": d, "cls": cls, "f": "leverage"}
                    yield {"n": n, "d": d, "cls": cls, "f": "leverage-mismatch"}

    @staticmethod
    def run(p):
        n, d = p["n"], p["d"]
        X = arr2(n, d, p["cls"], 1)
        if p["f"] == "lstsq":
            from hydrodiy.stat import sutils
            sutils.lstsq(X, arr(n, "finite"), add_intercept=True)
        else:
            import c_hydrodiy_stat
            dd = d if p["f"] == "leverage" else d + 1
            c_hydrodiy_stat.olsleverage(np.ascontiguousarray(X), np.eye(dd), np.zeros(n))


# ------------------------------------------------------------------ gis
GSHAPES = [(1, 1), (1, 3), (3, 1), (2, 2), (3, 3)]


def gshapes():
    return GSHAPES + ([(1, 2), (2, 3), (4, 4), (1, 9)] if _CUR_TIER[0] == "thorough" else [])

FPATTERNS = ["sinks", "offgrid", "cycle2", "invalid", "seed", "east", "converge"]


def flow_codes(nr, nc, pat, seed):
    from checks import _flow
    ntot = nr * nc
    if pat == "sinks":
        return [0] * ntot
    if pat == "offgrid":
        return [32] * ntot
    if pat == "cycle2":
        c = [0] * ntot
        if nc >= 2:
            c[0], c[1] = 1, 16
        elif nr >= 2:
            c[0], c[1] = 4, 64
        return c
    if pat == "invalid":
        return [3, -1, 255, 9999, 5, -2 ** 40, 2 ** 40, 7, 6][:ntot]
    if pat == "seed":
        al = _flow.alphabet(seed)
        return [al[(i * 3 + seed * 5 + 1) % len(al)] for i in range(ntot)]
    return _flow.base_fields(nr, nc)[pat]


def make_flow(nr, nc, pat, seed, csz=1.0):
    from hydrodiy.gis.grid import Grid
    g = Grid("fd", nc, nr, dtype=np.int64, cellsize=csz, xllcorner=0.0, yllcorner=0.0)
    g.data = np.array(flow_codes(nr, nc, pat, seed), dtype=np.int64).reshape(nr, nc)
    return g


CELLS = ["0", "last", "-1", "ntot", "big", "-big"]


def cellnum(tag, ntot):
    return {"0": 0, "last": ntot - 1, "-1": -1, "ntot": ntot, "big": 2 ** 40, "-big": -2 ** 40, "mid": ntot // 2}[tag]


@entry("grid.cells")
class E_gridcells:
    @staticmethod
    def space(seed, tier):
        for sh in gshapes():
            for cls in CLASSES:
                for n in (0, 1, 2, 5):
                    for w in (2, 1, 3):
                        yield {"f": "coord2cell", "shape": list(sh), "cls": cls, "n": n, "w": w}
                        yield {"f": "slice", "shape": list(sh), "cls": cls, "n": n, "w": w}
            for n in (0, 1, 3):
                for tag in CELLS:
                    yield {"f": "cell2coord", "shape": list(sh), "n": n, "cell": tag}
                    yield {"f": "cell2rowcol", "shape": list(sh), "n": n, "cell": tag}
            for tag in CELLS:
                yield {"f": "neighbours", "shape": list(sh), "cell": tag}
            for cls in ("finite", "nan", "pinf", "huge", "negative"):
                yield {"f": "clip", "shape": list(sh), "cls": cls}
            for nv in (0, 1, 2, 3, 4):
                for cls in ("finite", "nan", "mixed", "huge"):
                    for w in (2, 1, 3):
                        yield {"f": "cells_inside_polygon", "shape": list(sh), "nv": nv, "cls": cls, "w": w}
        for csz in (0.0, -1.0, float("nan"), 1e-300, 1e300):
            yield {"f": "coord2cell", "shape": [2, 2], "cls": "finite", "n": 3, "w": 2, "csz": csz}
            yield {"f": "slice", "shape": [2, 2], "cls": "finite", "n": 3, "w": 2, "csz": csz}
        # points on and one ulp inside / outside every edge, cell sizes that are not powers of two (the quotient
        # (x - xll) / cellsize may round up to ncols although x < xll + ncols * cellsize): every ncols 1..20
        for nc in range(1, 21 if tier == "quick" else 65):
            for nr in (1, 3):
                for csz in (0.1, 1.0 / 3, 0.7, 1e-3):
                    for xll in (0.0, 0.5, -0.3):
                        for f in ("coord2cell", "slice"):
                            yield {"f": f, "shape": [nr, nc], "cls": "edges", "csz": csz, "xll": xll}

    @staticmethod
    def run(p):
        from hydrodiy.gis.grid import Grid
        nr, nc = p["shape"]
        g = Grid("g", nc, nr, cellsize=p.get("csz", 1.0), xllcorner=p.get("xll", 0.0), yllcorner=p.get("xll", 0.0))
        g.data = np.arange(nr * nc, dtype=np.float64).reshape(nr, nc)
        ntot = nr * nc
        f = p["f"]
        if p["cls"] == "edges" if "cls" in p else False:
            csz, ll = p["csz"], p["xll"]
            xs, ys = [], []
            for n_, out in ((nc, xs), (nr, ys)):
                for e in (ll, ll + csz * n_, ll + csz * (n_ - 1), ll + csz):
                    out += [e, float(np.nextafter(e, np.inf)), float(np.nextafter(e, -np.inf))]
            pts = np.array([[x, y] for x in xs for y in ys], dtype=np.float64)
            if f == "coord2cell":
                g.coord2cell(pts)
            else:
                g.slice(pts)
        elif f == "coord2cell":
            g.coord2cell(arr2(p["n"], p["w"], p["cls"]))
        elif f == "slice":
            g.slice(arr2(p["n"], p["w"], p["cls"]))
        elif f == "cell2coord":
            g.cell2coord(np.array([cellnum(p["cell"], ntot)] * p["n"], dtype=np.int64))
        elif f == "cell2rowcol":
            g.cell2rowcol(np.array([cellnum(p["cell"], ntot)] * p["n"], dtype=np.int64))
        elif f == "neighbours":
            g.neighbours(cellnum(p["cell"], ntot))
        elif f == "clip":
            a = arr(4, p["cls"])
            g.clip(a[0], a[1], a[2], a[3])
        elif f == "cells_inside_polygon":
            g.cells_inside_polygon(arr2(p["nv"], p["w"], p["cls"]))


@entry("gutils.points_inside_polygon")
class E_pip:
    @staticmethod
    def space(seed, tier):
        for n in [0, 1, 2, 5] + big_lengths(seed, tier)[:1]:
            for nv in (0, 1, 2, 3, 4):
                for cls in CLASSES:
                    for o in devs({"inside": "none", "atol": 1e-8, "nprint": 0, "pw": 2, "vw": 2},
                                  {"inside": ["ok", "short", "long", "int64"], "atol": [0.0, -1.0, float("nan"), 1e300],
                                   "nprint": [1, -1, 2 ** 31 - 1], "pw": [1, 3], "vw": [1, 3]}, 2):
                        yield dict(o, n=n, nv=nv, cls=cls)

    @staticmethod
    def run(p):
        from hydrodiy.gis import gutils
        n = p["n"]
        pts = arr2(n, p["pw"], p["cls"])
        poly = arr2(p["nv"], p["vw"], "finite", 3)
        ins = {"none": None, "ok": np.zeros(n, dtype=np.int32), "short": np.zeros(max(n - 1, 0), dtype=np.int32),
               "long": np.zeros(n + 1, dtype=np.int32), "int64": np.zeros(n, dtype=np.int64)}[p["inside"]]
        gutils.points_inside_polygon(pts, poly, ins, p["atol"], p["nprint"])


@entry("catchment")
class E_catchment:
    @staticmethod
    def space(seed, tier):
        for sh in gshapes():
            for pat in FPATTERNS:
                for outlet in CELLS + ["mid"]:
                    for o in devs({"nval": "ntot+3", "inlets": "none"},
                                  {"nval": [0, 1, 2, "ntot", "default", -1], "inlets": ["0", "last", "-1", "ntot", "outlet", "all"]}, 2):
                        yield dict(o, f="delineate", shape=list(sh), pat=pat, outlet=outlet)
                for tag in CELLS:
                    for n in (0, 1, 3):
                        yield {"f": "updown", "shape": list(sh), "pat": pat, "cell": tag, "n": n}
                    for nval in (0, 1, 2, "ntot+3", "default"):
                        yield {"f": "river", "shape": list(sh), "pat": pat, "cell": tag, "nval": nval}

    @staticmethod
    def run(p):
        from hydrodiy.gis.grid import Catchment, delineate_river
        nr, nc = p["shape"]
        ntot = nr * nc
        fd = make_flow(nr, nc, p["pat"], 0)
        f = p["f"]
        if f == "updown":
            ca = Catchment("c", fd)
            cells = np.array([cellnum(p["cell"], ntot)] * p["n"], dtype=np.int64)
            try:
                ca.upstream(cells)
            except Exception:
                pass
            ca.downstream(cells)
        elif f == "river":
            nval = {"ntot+3": ntot + 3, "default": 1000000}.get(p["nval"], p["nval"])
            delineate_river(fd, cellnum(p["cell"], ntot), nval=nval)
        else:
            ca = Catchment("c", fd)
            outlet = cellnum(p["outlet"], ntot)
            inl = {"none": None, "0": [0], "last": [ntot - 1], "-1": [-1], "ntot": [ntot], "outlet": [outlet],
                   "all": list(range(ntot))}[p["inlets"]]
            nval = {"ntot+3": ntot + 3, "ntot": ntot, "default": 1000000}.get(p["nval"], p["nval"])
            ca.delineate_area(outlet, inl, nval=nval)
            ca.compute_flowpathlengths()
            ca.delineate_boundary()
            ca.isin(0)


@entry("catchment.derived")
class E_derived:
    """intersect / voronoi / boundary on cell sets injected or delineated"""
    @staticmethod
    def space(seed, tier):
        for sh in gshapes():
            ntot = sh[0] * sh[1]
            for area in ("empty", "one", "all", "delineated", "invalid", "dup", "ring"):
                for npts in (0, 1, 2, ntot + 2):
                    for cls in ("finite", "nan", "pinf", "huge", "mixed"):
                        for w in (2, 1, 3):
                            yield {"f": "voronoi", "shape": list(sh), "area": area, "npts": npts, "cls": cls, "w": w}
                for gsh in ((1, 1), (2, 2), (1, 3), (4, 4), (7, 7)):
                    for o in devs({"csz": 2.0, "xll": 0.0, "yll": 0.0, "filled": False},
                                  {"csz": [1.0, 0.5, 0.25, 0.0, -1.0, float("nan"), 1e300], "xll": [-1.0, 100.0, float("nan"), -1e300],
                                   "yll": [0.5, -100.0], "filled": [True]}, 2):
                        yield dict(o, f="intersect", shape=list(sh), area=area, gshape=list(gsh))
                yield {"f": "boundary", "shape": list(sh), "area": area}

    @staticmethod
    def run(p):
        from hydrodiy.gis.grid import Grid, Catchment, voronoi
        nr, nc = p["shape"]
        ntot = nr * nc
        fd = make_flow(nr, nc, "converge", 0)
        ca = Catchment("c", fd)
        area = p["area"]
        if area == "delineated":
            ca.delineate_area(ntot - 1, nval=ntot + 3)
        else:
            if area == "ring":
                # every cell on the edge of the grid; the filled area is the whole grid (more cells than the area)
                cells = [c for c in range(ntot) if (c // nc in (0, nr - 1)) or (c % nc in (0, nc - 1))]
                filledcells = list(range(ntot))
            else:
                cells = {"empty": [], "one": [0], "all": list(range(ntot)), "invalid": [-1, ntot, 2 ** 40], "dup": [0, 0, 0]}[area]
                filledcells = cells
            ca._idxcells_area = np.array(cells, dtype=np.int64)
            ca._idxcells_area_filled = np.array(filledcells, dtype=np.int64)
            ca._idxcell_outlet = np.int64(ntot - 1)
        f = p["f"]
        if f == "voronoi":
            voronoi(ca, arr2(p["npts"], p["w"], p["cls"]))
        elif f == "intersect":
            gr, gc = p["gshape"]
            g = Grid("coarse", gc, gr, cellsize=p["csz"], xllcorner=p["xll"], yllcorner=p["yll"])
            ca.intersect(g, filled=p["filled"])
        else:
            ca.delineate_boundary()


@entry("accumulate_slope")
class E_acc:
    @staticmethod
    def space(seed, tier):
        for sh in gshapes():
            for pat in FPATTERNS:
                for o in devs({"nprint": 100, "maxcells": -1, "field": "none"},
                              {"nprint": [1, 0, -1, 2 ** 62], "maxcells": [0, 1, 2, -5, 10 ** 6], "field": ["ones", "nan", "huge", "wrongshape"]}, 2):
                    yield dict(o, f="accumulate", shape=list(sh), pat=pat)
                for o in devs({"nprint": 100, "alt": "ramp"}, {"nprint": [1, 0, -1], "alt": ["nan", "huge", "const", "wrongshape"]}, 2):
                    yield dict(o, f="slope", shape=list(sh), pat=pat)

    @staticmethod
    def run(p):
        from hydrodiy.gis.grid import Grid, accumulate, slope
        nr, nc = p["shape"]
        fd = make_flow(nr, nc, p["pat"], 0)
        if p["f"] == "accumulate":
            fld = None
            if p["field"] != "none":
                if p["field"] == "wrongshape":
                    fld = Grid("a", nc + 1, nr + 1)
                else:
                    fld = Grid("a", nc, nr)
                    fld.data = {"ones": np.ones((nr, nc)), "nan": np.full((nr, nc), np.nan), "huge": np.full((nr, nc), 1e300)}[p["field"]]
            accumulate(fd, fld, nprint=p["nprint"], max_accumulated_cells=p["maxcells"])
        else:
            if p["alt"] == "wrongshape":
                alt = Grid("z", nc + 1, nr)
            else:
                alt = Grid("z", nc, nr)
                alt.data = {"ramp": np.arange(nr * nc, dtype=np.float64).reshape(nr, nc), "nan": np.full((nr, nc), np.nan),
                            "huge": np.full((nr, nc), 1e300), "const": np.ones((nr, nc))}[p["alt"]]
            slope(fd, alt, nprint=p["nprint"])


@entry("raw.mismatched")
class E_raw:
    """raw Cython functions with deliberately mismatched buffers: the wrappers' own shape checks must stop them"""
    @staticmethod
    def space(seed, tier):
        for f in ("aggregate", "flathomogen", "islin", "eckhardt", "armodel_sim", "armodel_residual", "crps", "ensrank",
                  "ad_test", "pareto_front", "coord2cell", "cell2coord", "cell2rowcol", "neighbours", "upstream", "downstream",
                  "delineate_area", "delineate_river", "voronoi", "points_inside_polygon", "flowpathlengths", "intersect",
                  "delineate_boundary", "exclude_zero_area_boundary"):
            for n in (0, 1, 3):
                for delta in (-1, 0, 1):
                    yield {"f": f, "n": n, "delta": delta}

    @staticmethod
    def run(p):
        import c_hydrodiy_data as cd, c_hydrodiy_stat as cs, c_hydrodiy_gis as cg
        from hydrodiy.gis.grid import FLOWDIRCODE
        f, n = p["f"], p["n"]
        m = max(n + p["delta"], 0)
        i32 = lambda k: np.zeros(k, dtype=np.int32)
        i64 = lambda k: np.zeros(k, dtype=np.int64)
        f64 = lambda *s: np.zeros(s, dtype=np.float64)
        fd = np.zeros((2, 2), dtype=np.int64)
        if f == "aggregate":
            cd.aggregate(0, 0, i32(n), f64(m), f64(n), i32(1 if p["delta"] <= 0 else 0))
        elif f == "flathomogen":
            cd.flathomogen(0, i32(n), f64(n), f64(m))
        elif f == "islin":
            cd.islin(0.0, 1e-6, 3, f64(n), i32(m))
        elif f == "eckhardt":
            cd.eckhardt(1, 0.95, 20.0, 0.8, f64(n), f64(m))
        elif f == "armodel_sim":
            cs.armodel_sim(0.0, 0.0, f64(2), f64(n), f64(m))
        elif f == "armodel_residual":
            cs.armodel_residual(0.0, 0.0, f64(2), f64(n), f64(m))
        elif f == "crps":
            cs.crps(0, 0, f64(n), f64(m, 3), f64(n), f64(4 + p["delta"], 7), f64(5))
        elif f == "ensrank":
            cs.ensrank(1e-6, f64(n, 2), f64(m, n), f64(n))
        elif f == "ad_test":
            cs.ad_test(f64(n) + 0.5, f64(2 + p["delta"]))
        elif f == "pareto_front":
            cs.pareto_front(1, f64(n, 2), i32(m))
        elif f == "coord2cell":
            cg.coord2cell(2, 2, 0.0, 0.0, 1.0, f64(n, 2), i64(m))
        elif f == "cell2coord":
            cg.cell2coord(2, 2, 0.0, 0.0, 1.0, i64(n), f64(m, 2))
        elif f == "cell2rowcol":
            cg.cell2rowcol(2, 2, i64(n), i64(2 * m).reshape(m, 2))
        elif f == "neighbours":
            cg.neighbours(2, 2, 0, i64(9 + p["delta"] * n))
        elif f == "upstream":
            cg.upstream(FLOWDIRCODE, fd, i64(n), i64(9 * m).reshape(m, 9))
        elif f == "downstream":
            cg.downstream(FLOWDIRCODE, fd, i64(n), i64(m))
        elif f == "delineate_area":
            cg.delineate_area(FLOWDIRCODE, fd, 0, i64(0), i64(n), i64(m), i64(n))
        elif f == "delineate_river":
            cg.delineate_river(0.0, 0.0, 1.0, FLOWDIRCODE, fd, 0, i64(1), i64(n), f64(m, 5))
        elif f == "voronoi":
            cg.voronoi(2, 2, 0.0, 0.0, 1.0, i64(2), f64(n, 2), f64(m))
        elif f == "points_inside_polygon":
            cg.points_inside_polygon(1e-8, 0, f64(n, 2), f64(3, 2), i32(m))
        elif f == "flowpathlengths":
            cg.delineate_flowpathlengths_in_catchment(0, FLOWDIRCODE, fd, i64(n), f64(m, 3))
        elif f == "intersect":
            cg.intersect(2, 2, 0.0, 0.0, 2.0, 1.0, f64(n, 2) + 0.5, i64(1), i64(4), f64(4 + p["delta"]))
        elif f == "delineate_boundary":
            cg.delineate_boundary(2, 2, i64(n), i64(m), i64(4), i64(n))
        elif f == "exclude_zero_area_boundary":
            cg.exclude_zero_area_boundary(1e-6, f64(n, 2), i64(m))
        elif f == "slice":
            cg.slice(0.0, 0.0, 1.0, f64(2, 2), f64(n, 2), f64(m))


# ---------------------------------------------------------------------------------------

_REACHED = [0]
_REACHED_FN = {}


def preload():
    """wrap every compiled function so that 'reached a kernel' can be counted"""
    import c_hydrodiy_data, c_hydrodiy_stat, c_hydrodiy_gis
    import functools
    for mod in (c_hydrodiy_data, c_hydrodiy_stat, c_hydrodiy_gis):
        if getattr(mod, "_verif_wrapped", False):
            continue
        for name in dir(mod):
            fn = getattr(mod, name)
            if name.startswith("_") or not callable(fn) or isinstance(fn, type):
                continue

            def mk(fn, label):
                def w(*a, **k):
                    _REACHED[0] += 1
                    _REACHED_FN[label] = _REACHED_FN.get(label, 0) + 1
                    return fn(*a, **k)
                return w
            setattr(mod, name, mk(fn, "%s.%s" % (mod.__name__.replace("c_hydrodiy_", ""), name)))
        mod._verif_wrapped = True


def env_always_units(unit, variant):
    """the direct calls of the compiled-module functions run in the python -O variant every time (their only
    length check is a Cython assert: listed in known_findings.json)"""
    return variant == "python -O" and unit["entry"] in ("raw.mismatched", "c_data.dates")


def units(tier, seed):
    us = []
    _CUR_TIER[0] = tier
    for name in sorted(ENTRIES):
        cases = list(ENTRIES[name].space(seed, tier))
        # chunks of <= 400 cases
        size = 400
        nchunks = (len(cases) + size - 1) // size
        for c in range(nchunks):
            us.append({"entry": name, "chunk": c, "size": size, "seed": seed, "tier": tier})
    return us


def unit_cases(unit):
    _CUR_TIER[0] = unit["tier"]
    cases = list(ENTRIES[unit["entry"]].space(unit["seed"], unit["tier"]))
    s = unit["chunk"] * unit["size"]
    return cases[s:s + unit["size"]]


def jsonable(p):
    out = {}
    for k, v in p.items():
        if isinstance(v, float) and (math.isnan(v) or math.isinf(v)):
            out[k] = repr(v)
        else:
            out[k] = v
    return out


def unjson(p):
    out = {}
    for k, v in p.items():
        if isinstance(v, str) and v in ("nan", "inf", "-inf"):
            out[k] = float(v)
        else:
            out[k] = v
    return out


def run_unit(unit, ctx):
    preload()
    name = unit["entry"]
    runner = ENTRIES[name].run
    first = True
    for i, p in enumerate(unit_cases(unit)):
        if not ctx.sup.begin(i):
            continue
        if first:
            ctx.case(False, n=0, sample={"entry": name, "params": jsonable(p)})
            first = False
        before = _REACHED[0]
        out = "ok"
        try:
            runner(p)
        except BaseException as e:
            if isinstance(e, (KeyboardInterrupt, SystemExit, MemoryError)):
                raise
            out = type(e).__name__
        ctx.sup.end()
        for lab, cnt in list(_REACHED_FN.items()):
            ctx.count("kernel_calls." + lab, cnt)
        _REACHED_FN.clear()
        reached = _REACHED[0] > before
        ctx.case(reached, outcome="%s:%s" % (name, out))
        ctx.count("calls.%s" % name)
        if reached:
            ctx.count("reached_kernel.%s" % name)
        if out != "ok":
            ctx.count("python_exception")


def crash_violation(unit, idx, status, stderr):
    from mc.runner import sanitizer_key
    cases = unit_cases(unit)
    p = cases[idx] if idx is not None and idx < len(cases) else None
    kind, fn = sanitizer_key(stderr or "")
    if "timeout" in status:
        kind = "hang"
    if kind is None:
        kind = "abnormal-exit:%s" % status.replace(" ", "")
    key = "%s:%s:%s" % (unit["entry"], kind, fn or "?")
    head = ""
    m = re.search(r"(ERROR: AddressSanitizer[^\n]*|[^\n]*runtime error[^\n]*)", stderr or "")
    if m:
        head = m.group(1)[:300]
    frames = re.findall(r"#\d+ 0x[0-9a-f]+ in (\w+) ([^\s]+)", stderr or "")[:4]
    case = {"entry": unit["entry"], "params": jsonable(p) if p is not None else None}
    return key, case, "%s died (%s) on %s: %s %s" % (unit["entry"], status, case["params"], head, frames)


def replay(case):
    """runs the single call; under ASan a defect kills this process (non-zero exit = still failing)"""
    preload()
    p = unjson(case["params"])
    import signal
    signal.signal(signal.SIGPROF, signal.SIG_DFL)
    signal.setitimer(signal.ITIMER_PROF, CASE_TIMEOUT)
    try:
        ENTRIES[case["entry"]].run(p)
    except Exception:
        pass
    signal.setitimer(signal.ITIMER_PROF, 0)
    return []
