"""Stateless bounded-exhaustive explorer.

A check module provides

    ID                       property id
    RULE                     how cases are enumerated / what is non-trivial
    ASSUMPTIONS              list of str
    units(tier, seed)        -> list of JSON-able unit descriptors; the units
                                partition the finite space of this tier
    run_unit(unit, ctx)      -> enumerates *every* case of the unit on the real
                                implementation and records into ctx (a Result)
    replay(case)             -> list of violation dicts for a single case
    SUPERVISED (optional)    True: units are run in supervised child processes
                                (crash / hang / sanitizer attribution)

Nothing here samples: a unit is either finished or the run is reported as
incomplete (exit 2).
"""
import os, sys, time, json, hashlib, pickle, signal, tempfile, traceback
import multiprocessing as mp

MAX_VIOL_PER_KEY = 3        # kept (with full case) per finding key and unit
MAX_SAMPLES = 6


def jhash(obj):
    return hashlib.sha1(json.dumps(obj, sort_keys=True, default=repr)
                        .encode()).hexdigest()[:16]


class Result(object):
    """Accumulator for one unit (mergeable)."""

    def __init__(self):
        self.evaluations = 0
        self.nontrivial = 0
        self.states = 0
        self.transitions = 0
        self.traces = 0
        self.outcomes = set()       # hashes of distinct observed outcomes
        self.counters = {}
        self.samples = []
        self.violations = {}        # key -> [violation dicts]
        self.nviol = 0
        self.incomplete = []        # reasons

    # ---- recording API used by checks
    def case(self, nontrivial=True, outcome=None, sample=None, n=1):
        self.evaluations += n
        if nontrivial:
            self.nontrivial += n
        if outcome is not None:
            if len(self.outcomes) < 200000:
                self.outcomes.add(outcome if isinstance(outcome, (int, str))
                                  else hash(outcome))
        if sample is not None and len(self.samples) < MAX_SAMPLES:
            self.samples.append(sample)

    def count(self, name, n=1):
        self.counters[name] = self.counters.get(name, 0) + n

    def violation(self, key, case, msg, observed=None, expected=None):
        self.nviol += 1
        lst = self.violations.setdefault(key, [])
        if len(lst) < MAX_VIOL_PER_KEY:
            lst.append({"key": key, "case": case, "msg": msg,
                        "observed": observed, "expected": expected,
                        "unit": getattr(self, "current_unit", None)})

    def merge(self, o):
        self.evaluations += o.evaluations
        self.nontrivial += o.nontrivial
        self.states += o.states
        self.transitions += o.transitions
        self.traces += o.traces
        if len(self.outcomes) < 2000000:
            self.outcomes |= o.outcomes
        for k, v in o.counters.items():
            self.counters[k] = self.counters.get(k, 0) + v
        for s in o.samples:
            if len(self.samples) < MAX_SAMPLES:
                self.samples.append(s)
        for k, lst in o.violations.items():
            mine = self.violations.setdefault(k, [])
            for v in lst:
                if len(mine) < MAX_VIOL_PER_KEY:
                    mine.append(v)
        self.nviol += o.nviol
        self.incomplete += o.incomplete


# ---------------------------------------------------------------------------
# retained results: a value returned by a library call belongs to the caller.  A check lists the computational
# entry points of its property in RETAIN = [("hydrodiy.stat.metrics", "binary"), ("hydrodiy.gis.grid",
# "Grid.neighbours"), ...]; they are wrapped in every worker.  After each wrapped call the result object is kept
# together with a private deep copy; before the next wrapped call returns, every kept object is compared with its
# copy.  A kept result that changed although the caller did nothing but call the library again (a function
# handing out a shared work buffer, a cached dictionary filled in place) is a violation of the property the
# result belongs to: the value the caller holds is no longer the value the property defines for its arguments.
# Results that share memory with an argument (output buffers, views of the caller's data) and getters are not
# retained.

class Retainer(object):
    def __init__(self):
        self.kept = {}          # function name -> (object, snapshot, description of the call)
        self.found = []         # (key, msg)
        self.calls = 0
        self.skipped = 0
        self.active = True

    @staticmethod
    def snap(x, depth=0):
        """value of x as nested tuples / bytes (None = nothing that a later call could change)"""
        import numpy as np
        if isinstance(x, np.ndarray):
            if x.dtype.kind == "O":
                try:
                    return ("O", x.shape, pickle.dumps(x.tolist(), protocol=4))
                except Exception:
                    return None
            return (x.shape, x.dtype.str, x.tobytes())
        if x is None or isinstance(x, (bool, int, float, complex, str, bytes, np.generic)):
            return ("s", repr(x))
        if depth > 4:
            return None
        if isinstance(x, (list, tuple)):
            return (type(x).__name__,) + tuple(Retainer.snap(y, depth + 1) for y in x)
        if isinstance(x, dict):
            try:
                return ("dict",) + tuple((repr(k), Retainer.snap(v, depth + 1)) for k, v in x.items())
            except Exception:
                return None
        mod = type(x).__module__ or ""
        if mod.startswith("pandas"):
            try:
                out = [type(x).__name__, Retainer.snap(np.asarray(x.values), depth + 1)]
                if hasattr(x, "index"):
                    out.append(Retainer.snap(np.asarray(x.index.values), depth + 1))
                if hasattr(x, "columns"):
                    out.append(Retainer.snap(np.asarray(x.columns.values), depth + 1))
                return tuple(out)
            except Exception:
                return None
        if mod.startswith("hydrodiy") and hasattr(x, "__dict__"):
            return (type(x).__name__,) + tuple((k, Retainer.snap(v, depth + 1)) for k, v in vars(x).items())
        return None

    @staticmethod
    def _mutable(x):
        import numpy as np
        if isinstance(x, np.ndarray):
            return x.size > 0
        if isinstance(x, (dict, list)):
            return len(x) > 0
        if isinstance(x, tuple):
            return any(Retainer._mutable(y) for y in x)
        mod = type(x).__module__ or ""
        return mod.startswith(("pandas", "hydrodiy"))

    @staticmethod
    def _arrays(x, depth=0):
        import numpy as np
        if isinstance(x, np.ndarray):
            yield x
        elif isinstance(x, (str, bytes, int, float, bool)) or x is None:
            return
        elif isinstance(x, (list, tuple)):
            if depth < 3:
                for y in x[:50]:
                    for a in Retainer._arrays(y, depth + 1):
                        yield a
        elif isinstance(x, dict):
            if depth < 3:
                for y in list(x.values())[:50]:
                    for a in Retainer._arrays(y, depth + 1):
                        yield a
        elif hasattr(x, "__dict__") and (type(x).__module__ or "").startswith("hydrodiy"):
            if depth < 3:
                for y in list(vars(x).values())[:50]:
                    for a in Retainer._arrays(y, depth + 1):
                        yield a
        else:
            v = getattr(x, "values", None)
            if isinstance(v, np.ndarray):
                yield v
            ix = getattr(x, "index", None)
            iv = getattr(ix, "values", None)
            if isinstance(iv, np.ndarray):
                yield iv

    def verify(self, during):
        for name, (obj, sn, (args, kwargs)) in list(self.kept.items()):
            if Retainer.snap(obj) != sn:
                desc = "%s(%s)" % (name, ", ".join([_short(x, 60) for x in args[:4]] +
                                                   ["%s=%s" % (k, _short(v, 40)) for k, v in list(kwargs.items())[:4]]))
                self.found.append(("result-overwritten:%s:by:%s" % (name, during),
                                   "the value returned earlier by %s changed while %s was called: the caller still holds "
                                   "the result of %s, which now reads %s" % (name, during, desc, _short(obj))))
                del self.kept[name]

    def after_call(self, name, args, kwargs, res):
        import numpy as np
        self.calls += 1
        if self.kept:
            self.verify(name)
        if not Retainer._mutable(res):
            return
        argarrays = [a for x in list(args) + list(kwargs.values()) for a in Retainer._arrays(x)]
        if argarrays:
            for r in Retainer._arrays(res):
                for a in argarrays:
                    if np.may_share_memory(r, a):
                        # output buffer or view of the caller's data: the caller may change it legitimately
                        self.skipped += 1
                        self.kept.pop(name, None)
                        return
        sn = Retainer.snap(res)
        if sn is None:
            self.skipped += 1
            return
        self.kept[name] = (res, sn, (args, kwargs))

    def wrap(self, modname, attr):
        import importlib, functools
        owner = importlib.import_module(modname)
        parts = attr.split(".")
        for p_ in parts[:-1]:
            owner = getattr(owner, p_)
        try:
            orig = owner.__dict__[parts[-1]] if isinstance(owner, type) else getattr(owner, parts[-1])
        except (KeyError, AttributeError):
            raise RuntimeError("RETAIN names %s.%s, which does not exist in the working tree" % (modname, attr))
        if getattr(orig, "_verif_retained", False):
            return
        name = "%s.%s" % (modname.split(".")[-1], attr)
        kind = None
        fun = orig
        if isinstance(orig, staticmethod):
            kind, fun = staticmethod, orig.__func__
        elif isinstance(orig, classmethod):
            kind, fun = classmethod, orig.__func__
        ret = self

        @functools.wraps(fun)
        def wrapper(*a, **k):
            res = fun(*a, **k)
            if ret.active:
                ret.active = False
                try:
                    ret.after_call(name, a, k, res)
                finally:
                    ret.active = True
            return res
        wrapper._verif_retained = True
        setattr(owner, parts[-1], kind(wrapper) if kind else wrapper)

    def flush(self, result):
        for key, msg in self.found:
            result.violation(key, {"retained": True, "unit": getattr(result, "current_unit", None)}, msg)
        self.found = []
        if self.calls:
            result.count("retained-results.calls-watched", self.calls)
            if self.skipped:
                result.count("retained-results.not-kept(shares memory with an argument / opaque)", self.skipped)
        self.calls = self.skipped = 0
        self.kept = {}


def _short(x, n=200):
    try:
        import numpy as np
        with np.printoptions(threshold=12, edgeitems=4, precision=6):
            t = repr(x)
    except Exception:
        t = "<%s>" % type(x).__name__
    t = " ".join(t.split())
    return t if len(t) <= n else t[:n] + "..."


RETAINER = Retainer()


def install_retainer(mod):
    if os.environ.get("VERIF_NO_RETAIN") == "1":      # debugging aid only
        return
    for modname, attr in getattr(mod, "RETAIN", []):
        RETAINER.wrap(modname, attr)


# ---------------------------------------------------------------------------
# recycled argument objects: recycle(tag, array) returns, inside one worker process, the SAME ndarray object for
# every request with the same tag, shape and dtype, refilled in place with the new values.  Consecutive library
# calls of a check then receive one object whose content changed in between - what a caller does who fills a
# work array in a loop - so that anything the library remembers about an argument by identity (id(), weakref,
# `is`) instead of by value goes stale and the value oracle of the check sees it.
_RECYCLED = {}


_LIBM = [None]


def dirty_errno():
    """leave the C `errno` of this thread at EDOM, as any earlier libm domain error of the caller's program would
    (acos(2.)): library code that reads errno without clearing it first must not mistake it for its own error"""
    if _LIBM[0] is None:
        import ctypes, ctypes.util
        try:
            lib = ctypes.CDLL(ctypes.util.find_library("m") or "libm.so.6")
            lib.acos.restype = ctypes.c_double
            lib.acos.argtypes = [ctypes.c_double]
            _LIBM[0] = lib
        except Exception:
            _LIBM[0] = False
    if _LIBM[0]:
        _LIBM[0].acos(2.0)


def recycle(tag, arr):
    import numpy as np
    dirty_errno()
    a = np.asarray(arr)
    key = (tag, a.shape, a.dtype.str)
    buf = _RECYCLED.get(key)
    if buf is None:
        buf = np.array(a, copy=True, order="C")
        _RECYCLED[key] = buf
    else:
        buf[...] = a
    return buf


def _silence_stdout():
    """C kernels (accumulate, slope) print to C stdout: point fd 1 to /dev/null
    in workers; the parent prints results."""
    try:
        sys.stdout.flush()
        dn = os.open(os.devnull, os.O_WRONLY)
        os.dup2(dn, 1)
        os.close(dn)
    except OSError:
        pass


_MOD = None


def _init_worker(modname):
    global _MOD
    _silence_stdout()
    import importlib
    _MOD = importlib.import_module(modname)
    import numpy as np
    np.seterr(all="ignore")
    import warnings
    warnings.simplefilter("ignore")
    install_retainer(_MOD)


def _run_unit(unit):
    r = Result()
    r.current_unit = unit
    RETAINER.flush(Result())        # nothing kept from before the unit
    dirty_errno()
    try:
        _MOD.run_unit(unit, r)
        RETAINER.verify("(end of unit)")
    except BaseException:
        r.incomplete.append("unit %r raised: %s" % (unit, traceback.format_exc()[-3000:]))
    RETAINER.flush(r)
    return r


def _pool_child(modname, unit, timeout, outpath, errpath):
    efd = os.open(errpath, os.O_WRONLY | os.O_CREAT | os.O_TRUNC)
    os.dup2(efd, 2)
    os.close(efd)
    _init_worker(modname)
    if timeout:
        signal.signal(signal.SIGPROF, signal.SIG_DFL)
        signal.setitimer(signal.ITIMER_PROF, timeout)
    r = _run_unit(unit)
    signal.setitimer(signal.ITIMER_PROF, 0)
    with open(outpath + ".tmp", "wb") as f:
        pickle.dump(r, f)
    os.rename(outpath + ".tmp", outpath)
    os._exit(0)


def run_pool(mod, units, jobs, unit_timeout=None):
    """Every unit runs in a freshly forked worker: state leaking between calls (module globals, C statics,
    caches) then depends only on the unit's own deterministic history, so a history-dependent violation can
    be reproduced by re-running its unit in a fresh process.  A worker that dies (signal, sanitizer abort,
    os._exit inside the library) or exceeds unit_timeout seconds of CPU time does not stall the run: it is
    returned in Result.unit_crashes as dict(unit, status, stderr) and reported by the runner."""
    total = Result()
    total.unit_crashes = []
    if jobs <= 1 or len(units) <= 1:
        _init_worker_inproc(mod)
        for u in units:
            total.merge(_run_unit(u))
        return total
    tmpd = tempfile.mkdtemp(prefix="verif-pool-")
    pending = list(enumerate(units))
    pending.reverse()
    running = {}
    sys.stdout.flush()
    sys.stderr.flush()
    while pending or running:
        while pending and len(running) < jobs:
            ui, unit = pending.pop()
            outp = os.path.join(tmpd, "u%d.out" % ui)
            errp = os.path.join(tmpd, "u%d.err" % ui)
            pid = os.fork()
            if pid == 0:
                try:
                    _pool_child(mod.__name__, unit, unit_timeout, outp, errp)
                finally:
                    os._exit(3)
            running[pid] = (ui, unit, outp, errp)
        try:
            pid, status = os.waitpid(-1, 0)
        except ChildProcessError:
            pid = 0
        if not pid or pid not in running:
            if not pid:
                # no child left although some are recorded as running: treat them as lost
                for p_, (ui, unit, outp, errp) in list(running.items()):
                    total.unit_crashes.append(dict(unit=unit, status="worker lost", stderr=""))
                    running.pop(p_)
            continue
        ui, unit, outp, errp = running.pop(pid)
        if os.WIFEXITED(status) and os.WEXITSTATUS(status) == 0 and os.path.exists(outp):
            with open(outp, "rb") as f:
                total.merge(pickle.load(f))
        else:
            try:
                with open(errp, "r", errors="replace") as f:
                    err = f.read()[-20000:]
            except OSError:
                err = ""
            if os.WIFSIGNALED(status):
                desc = "signal %d" % os.WTERMSIG(status)
                if os.WTERMSIG(status) == signal.SIGPROF:
                    desc = "timeout > %gs of CPU time (SIGPROF)" % unit_timeout
            else:
                desc = "exit status %d" % os.WEXITSTATUS(status)
            total.unit_crashes.append(dict(unit=unit, status=desc, stderr=err))
        for fn in (outp, errp):
            try:
                os.remove(fn)
            except OSError:
                pass
    try:
        os.rmdir(tmpd)
    except OSError:
        pass
    return total


def _init_worker_inproc(mod):
    global _MOD
    _MOD = mod
    import numpy as np
    np.seterr(all="ignore")
    import warnings
    warnings.simplefilter("ignore")
    install_retainer(mod)


# ---------------------------------------------------------------------------
# supervised execution: each unit in its own child; the child reports the
# index of the case it is about to run; abnormal death / timeout is attributed
# to that case, the unit is re-run with that case skipped.

class Supervisor(object):
    """Passed as ctx.sup to run_unit in supervised mode."""

    def __init__(self, fd, skip, timeout):
        self.fd = fd
        self.skip = skip
        self.timeout = timeout

    def begin(self, idx):
        """Call before executing case number idx (unit-local, deterministic).
        Returns False if the case must be skipped (it killed a previous child)."""
        if idx in self.skip:
            return False
        os.write(self.fd, b"%d\n" % idx)
        if self.timeout:
            # CPU time of this process (user+system), not wall-clock: a loaded machine must not turn
            # a slow case into a "hang"; the kernels have no locks or sleeps, a hang burns CPU
            signal.setitimer(signal.ITIMER_PROF, self.timeout)
        return True

    def end(self):
        if self.timeout:
            signal.setitimer(signal.ITIMER_PROF, 0)


def _supervised_child(modname, unit, skip, timeout, wfd, outpath, errpath):
    # stderr (sanitizer reports) to file
    efd = os.open(errpath, os.O_WRONLY | os.O_CREAT | os.O_TRUNC)
    os.dup2(efd, 2)
    os.close(efd)
    _init_worker(modname)
    signal.signal(signal.SIGPROF, signal.SIG_DFL)     # kills even inside C
    r = Result()
    r.current_unit = unit
    r.sup = Supervisor(wfd, skip, timeout)
    try:
        _MOD.run_unit(unit, r)
        RETAINER.verify("(end of unit)")
    except BaseException:
        r.incomplete.append("unit %r raised: %s" % (unit, traceback.format_exc()[-3000:]))
    signal.setitimer(signal.ITIMER_PROF, 0)
    RETAINER.flush(r)
    r.sup = None
    with open(outpath, "wb") as f:
        pickle.dump(r, f)
    os._exit(0)


def run_supervised(mod, units, jobs, timeout=20.0, max_crashes=25):
    """Returns (Result, crashes) ; crashes = list of dict(unit, idx, status, stderr)"""
    total = Result()
    crashes = []
    tmpd = tempfile.mkdtemp(prefix="verif-sup-")
    pending = list(enumerate(units))
    pending.reverse()
    running = {}       # pid -> state
    skipsets = {}

    def launch(ui, unit):
        skip = skipsets.setdefault(ui, set())
        rfd, wfd = os.pipe()
        outp = os.path.join(tmpd, "u%d.out" % ui)
        errp = os.path.join(tmpd, "u%d.err" % ui)
        if os.path.exists(outp):
            os.remove(outp)
        pid = os.fork()
        if pid == 0:
            os.close(rfd)
            try:
                _supervised_child(mod.__name__, unit, skip, timeout, wfd, outp, errp)
            finally:
                os._exit(3)
        os.close(wfd)
        os.set_blocking(rfd, False)
        running[pid] = dict(ui=ui, unit=unit, rfd=rfd, outp=outp, errp=errp, last=None, buf=b"")

    def drain(st):
        while True:
            try:
                b = os.read(st["rfd"], 65536)
            except BlockingIOError:
                break
            if not b:
                break
            st["buf"] = (st["buf"] + b)[-64:]
        parts = st["buf"].split(b"\n")
        if len(parts) >= 2 and parts[-2].isdigit():
            st["last"] = int(parts[-2])

    while pending or running:
        while pending and len(running) < jobs:
            ui, unit = pending.pop()
            launch(ui, unit)
        # wait for any child, draining pipes meanwhile
        done = None
        while done is None:
            for pid, st in running.items():
                drain(st)
            try:
                pid, status = os.waitpid(-1, os.WNOHANG)
            except ChildProcessError:
                pid = 0
            if pid and pid in running:
                done = (pid, status)
            else:
                time.sleep(0.01)
        pid, status = done
        st = running.pop(pid)
        drain(st)
        os.close(st["rfd"])
        ok = os.WIFEXITED(status) and os.WEXITSTATUS(status) == 0 and os.path.exists(st["outp"])
        if ok:
            with open(st["outp"], "rb") as f:
                total.merge(pickle.load(f))
            os.remove(st["outp"])
        else:
            try:
                with open(st["errp"], "r", errors="replace") as f:
                    err = f.read()[-20000:]
            except OSError:
                err = ""
            if os.WIFSIGNALED(status):
                desc = "signal %d" % os.WTERMSIG(status)
                if os.WTERMSIG(status) == signal.SIGPROF:
                    desc = "timeout > %gs of CPU time (SIGPROF)" % timeout
            else:
                desc = "exit status %d" % os.WEXITSTATUS(status)
            crashes.append(dict(ui=st["ui"], unit=st["unit"], idx=st["last"],
                                status=desc, stderr=err))
            sk = skipsets[st["ui"]]
            if st["last"] is None or st["last"] in sk or len(sk) >= max_crashes:
                total.incomplete.append("unit %r abandoned after %d crashes (last idx %r, %s)"
                                        % (st["unit"], len(sk) + 1, st["last"], desc))
            else:
                sk.add(st["last"])
                pending.append((st["ui"], st["unit"]))
    try:
        for fn in os.listdir(tmpd):
            os.remove(os.path.join(tmpd, fn))
        os.rmdir(tmpd)
    except OSError:
        pass
    return total, crashes
