"""Runner: build, explore, classify (known finding / violation), evidence."""
import os, sys, json, time, re, subprocess, importlib, hashlib, fnmatch

VERIF = os.path.dirname(os.path.dirname(os.path.abspath(__file__)))

CHECKS = {
    "C01": "checks.c01_invertible", "C02": "checks.c02_jacobian",
    "C03": "checks.c03_crps", "C04": "checks.c04_scores",
    "C05": "checks.c05_memsafe", "C06": "checks.c06_delineate",
    "C07": "checks.c07_cells", "C08": "checks.c08_aggregate",
    "C09": "checks.c09_csv", "C10": "checks.c10_ranks",
    "C11": "checks.c11_accumulate", "C12": "checks.c12_vector",
    "C13": "checks.c13_gridio", "C14": "checks.c14_var2h",
    "C15": "checks.c15_polygon", "C16": "checks.c16_intersect",
    "C17": "checks.c17_armodel", "C18": "checks.c18_purity",
    "C19": "checks.c19_batches", "C20": "checks.c20_summaries",
}


def load_findings():
    p = os.path.join(VERIF, "known_findings.json")
    if not os.path.exists(p):
        return {"known": [], "fixed": []}
    with open(p) as f:
        return json.load(f)


def match_known(findings, pid, key):
    for k in findings.get("known", []):
        if k["property"] == pid and fnmatch.fnmatchcase(key, k["key"]):
            return k
    return None


ENV_UNITS = 12          # units re-run per environment variant
ENV_VARIANTS = [("TZ=America/Los_Angeles", {"TZ": "America/Los_Angeles"}),
                ("TZ=Asia/Tokyo", {"TZ": "Asia/Tokyo"}),
                ("python -O", {"PYTHONOPTIMIZE": "1"})]


def write_replay(pid, v, tier, seed, history_dependent=False):
    d = os.path.join(VERIF, "replays", pid)
    os.makedirs(d, exist_ok=True)
    body = dict(property=pid, key=v["key"], case=v["case"], msg=v["msg"],
                unit=v.get("unit"), history_dependent=history_dependent, env_variant=v.get("env_variant"),
                observed=v.get("observed"), expected=v.get("expected"),
                tier=tier, seed=seed,
                replay_cmd="./check %s --replay <this file>" % pid)
    txt = json.dumps(body, indent=1, sort_keys=True, default=repr)
    h = hashlib.sha1(json.dumps([v["key"], v["case"]], sort_keys=True,
                                default=repr).encode()).hexdigest()[:12]
    path = os.path.join(d, "%s.json" % h)
    with open(path, "w") as f:
        f.write(txt)
    return path


def validate_evidence(ev):
    try:
        import jsonschema
    except ImportError:
        return
    sp = "/root/.vp/EVIDENCE.schema.json"
    if not os.path.exists(sp):
        sp = os.path.join(VERIF, "vendor", "EVIDENCE.schema.json")
    with open(sp) as f:
        schema = json.load(f)
    jsonschema.validate(ev, schema)


def sanitizer_key(stderr):
    """Extract (kind, function) from an ASan/UBSan report."""
    kind = None
    m = re.search(r"ERROR: AddressSanitizer: ([\w-]+)", stderr)
    if m:
        kind = "asan:" + m.group(1)
        if m.group(1) == "SEGV":
            kind = "asan:SEGV"
    m2 = re.search(r"([\w./-]+\.c):(\d+):\d+: runtime error: ([^\n]+)", stderr)
    if m2 and kind is None:
        what = m2.group(3)
        what = re.sub(r"-?\d[\d.e+-]*", "N", what)[:60]
        kind = "ubsan:" + what
        return kind, os.path.basename(m2.group(1))
    fn = None
    for m3 in re.finditer(r"#\d+ 0x[0-9a-f]+ in (\w+) ([^\s]+)", stderr):
        if "hydrodiy" in m3.group(2) and not m3.group(1).startswith("__pyx"):
            fn = m3.group(1)
            break
    if fn is None:
        for m3 in re.finditer(r"#\d+ 0x[0-9a-f]+ in (\w+) ([^\s]+)", stderr):
            if "hydrodiy" in m3.group(2):
                fn = m3.group(1)
                break
    return kind, fn


def main(argv):
    import argparse
    ap = argparse.ArgumentParser()
    ap.add_argument("pid")
    ap.add_argument("--tier", default=os.environ.get("VERIF_TIER", "quick"))
    ap.add_argument("--replay")
    ap.add_argument("--jobs", type=int, default=int(os.environ.get("VERIF_JOBS", "0")) or (os.cpu_count() or 4))
    ap.add_argument("--no-confirm", action="store_true")
    ap.add_argument("--only", help="substring filter on unit descriptors (debug; marks run incomplete)")
    ap.add_argument("--subrun", help="internal: environment variant run on a subset of the units (prints one SUBRUN json line)")
    ap.add_argument("--stride", type=int, default=1)
    a = ap.parse_args(argv)
    pid = a.pid.upper()
    tier = a.tier
    try:
        seed = int(os.environ.get("VERIF_SEED", "0"))
    except ValueError:
        seed = 0
    mod = importlib.import_module(CHECKS[pid])

    # the extension modules must be the freshly built ones
    import c_hydrodiy_data, c_hydrodiy_stat, c_hydrodiy_gis
    bdir = os.environ["VERIF_BUILD_DIR"]
    for m in (c_hydrodiy_data, c_hydrodiy_stat, c_hydrodiy_gis):
        if not os.path.realpath(m.__file__).startswith(os.path.realpath(bdir)):
            print("HARNESS ERROR: %s loaded from %s, not from %s" % (m.__name__, m.__file__, bdir))
            return 2

    import hydrodiy
    repo = os.environ.get("VERIF_REPO", "/repo")
    if not os.path.realpath(hydrodiy.__file__).startswith(os.path.realpath(repo) + os.sep):
        print("HARNESS ERROR: hydrodiy imported from %s, not from %s" % (hydrodiy.__file__, repo))
        return 2

    if a.replay:
        with open(a.replay) as f:
            body = json.load(f)
        ev = body.get("env_variant")
        if ev and any(os.environ.get(k) != val for k, val in dict(ENV_VARIANTS)[ev].items()):
            env = dict(os.environ)
            env.update(dict(ENV_VARIANTS)[ev])
            return subprocess.run([sys.executable, "-m", "mc.runner"] + list(argv), cwd=VERIF, env=env).returncode
        from mc import explore
        explore._init_worker_inproc(mod)
        if os.environ.get("VERIF_REPLAY_QUIET") == "1":
            explore._silence_stdout()
        if body.get("history_dependent"):
            # the violation needs the call history of its unit: re-run the unit from its start
            r = explore.Result()
            r.current_unit = body["unit"]

            class _NoSup(object):
                def begin(self, i):
                    return True

                def end(self):
                    pass
            r.sup = _NoSup()
            try:
                mod.run_unit(body["unit"], r)
                explore.RETAINER.verify("(end of unit)")
            except BaseException as e:
                print("REPLAY: unit raised %r" % (e,))
            explore.RETAINER.flush(r)
            viols = [v for k, lst in r.violations.items() if k == body["key"] for v in lst]
        else:
            viols = mod.replay(body["case"])
        out = sys.stderr if os.environ.get("VERIF_REPLAY_QUIET") == "1" else sys.stdout
        for v in viols:
            out.write("REPLAY-VIOLATION property=%s key=%s %s\n" % (pid, v["key"], v["msg"]))
        if not viols:
            out.write("REPLAY-OK property=%s (case no longer fails)\n" % pid)
        return 1 if viols else 0

    from mc import explore
    # import the library once in the parent so that forked workers share it
    for name in ("hydrodiy.data.dutils", "hydrodiy.data.containers", "hydrodiy.stat.transform",
                 "hydrodiy.stat.metrics", "hydrodiy.stat.sutils", "hydrodiy.gis.grid",
                 "hydrodiy.io.csv", "hydrodiy.io.hyruns"):
        try:
            importlib.import_module(name)
        except Exception as e:
            print("HARNESS WARNING: cannot import %s: %r" % (name, e))
    if hasattr(mod, "preload"):
        mod.preload()
    t0 = time.time()
    units = mod.units(tier, seed)
    filtered = False
    if a.only:
        units = [u for u in units if a.only in json.dumps(u)]
        filtered = True
    if a.subrun:
        always = getattr(mod, "env_always_units", None)
        keep = units[::max(1, a.stride)]
        if always is not None:
            # units a check wants in every environment variant (e.g. the call sites of a listed known finding)
            keep = keep + [u for u in units if always(u, a.subrun) and u not in keep]
        units = keep
    supervised = getattr(mod, "SUPERVISED", False)
    if supervised:
        res, crashes = explore.run_supervised(mod, units, a.jobs,
                                              timeout=getattr(mod, "CASE_TIMEOUT", 20.0),
                                              max_crashes=getattr(mod, "MAX_CRASHES", 25))
        for c in crashes:
            key, case, msg = mod.crash_violation(c["unit"], c["idx"], c["status"], c["stderr"])
            res.current_unit = c["unit"]        # so that a crash that needs the unit's call history can be re-run with it
            res.violation(key, case, msg, observed=c["status"])
            res.current_unit = None
    else:
        utimeout = getattr(mod, "UNIT_TIMEOUT", 900.0 if tier == "quick" else 6 * 3600.0)
        res = explore.run_pool(mod, units, a.jobs, unit_timeout=utimeout)
        for c in getattr(res, "unit_crashes", []):
            # the interpreter did not survive a unit (crash inside a kernel, abort, endless loop): reported
            # against the unit, confirmed by re-running the unit in a fresh process
            kind = "hang" if "timeout" in c["status"] else "crash"
            sk, sf = sanitizer_key(c["stderr"] or "")
            res.current_unit = c["unit"]
            res.violation("unit:%s%s" % (kind, ":%s" % sf if sf else ""), {"unit_crash": True, "unit": c["unit"]},
                          "the interpreter did not survive the calls of this unit (%s): %s %s" % (
                              c["status"], json.dumps(c["unit"], default=repr)[:300], (c["stderr"] or "")[-300:]),
                          observed=c["status"])
            res.current_unit = None
    wall = time.time() - t0

    if a.subrun:
        out = dict(variant=a.subrun, units=len(units), evaluations=res.evaluations, incomplete=res.incomplete[:3],
                   violations=[dict(lst[0], n=len(lst)) for _, lst in sorted(res.violations.items())])
        sys.stdout.write("SUBRUN " + json.dumps(out, default=repr) + "\n")
        return 0

    # ---- environment variants: a subset of the units is run again in interpreters whose environment answers
    # differently (local time zone west / east of Greenwich, python -O): a result must not depend on them
    env_counts = {}
    if not filtered and os.environ.get("VERIF_ENV_VARIANTS", "1") != "0" and getattr(mod, "ENV_VARIANTS", True):
        nq = len(units) if tier == "quick" else len(mod.units("quick", seed))
        stride = max(1, -(-nq // ENV_UNITS))
        for vname, venv in ENV_VARIANTS:
            env = dict(os.environ)
            env.update(venv)
            # (always units of the quick tier: the variants answer "does the environment matter", not "how deep")
            cmd = [sys.executable, "-m", "mc.runner", pid, "--tier", "quick", "--jobs", str(a.jobs), "--subrun", vname,
                   "--stride", str(stride), "--no-confirm"]
            try:
                r = subprocess.run(cmd, cwd=VERIF, env=env, capture_output=True, text=True, timeout=3 * 3600)
                line = [l for l in r.stdout.splitlines() if l.startswith("SUBRUN ")]
                sub = json.loads(line[-1][7:]) if line else None
            except Exception as e:
                sub = None
                r = None
            if sub is None:
                res.incomplete.append("environment variant %s did not complete: %s" % (
                    vname, (r.stdout + r.stderr)[-500:] if r is not None else "no output"))
                continue
            env_counts[vname] = sub["evaluations"]
            res.counters["env.%s.units" % vname] = sub["units"]
            res.counters["env.%s.evaluations" % vname] = sub["evaluations"]
            for inc in sub["incomplete"]:
                res.incomplete.append("environment variant %s: %s" % (vname, inc))
            for v in sub["violations"]:
                key = "%s:env=%s" % (v["key"], vname)
                if v["key"] in res.violations:
                    continue            # fails in the default environment too: reported there
                res.violations.setdefault(key, []).append(dict(v, key=key, env_variant=vname,
                    msg="[only with %s] %s" % (" ".join("%s=%s" % kv for kv in sorted(venv.items())), v["msg"])))
                res.nviol += 1

    findings = load_findings()
    known_lines, viol_lines, flaky = [], [], []
    known_hits = {}
    history_dep = []
    nk = nv = 0
    for key in sorted(res.violations):
        lst = res.violations[key]
        kf = match_known(findings, pid, key)
        if kf is not None:
            nk += 1
            known_hits.setdefault(kf["key"], [kf, []])[1].append(key)
            continue
        v = lst[0]
        path = write_replay(pid, v, tier, seed)
        # confirm once in a fresh process before reporting
        confirmed = True
        if not a.no_confirm and getattr(mod, "CONFIRM", True):
            env = dict(os.environ)
            env["VERIF_REPLAY_QUIET"] = "1"
            if v.get("env_variant"):
                env.update(dict(ENV_VARIANTS)[v["env_variant"]])
            if isinstance(v["case"], dict) and (v["case"].get("unit_crash") or v["case"].get("retained")):
                confirmed = False       # only the whole unit can be replayed
            else:
                try:
                    r = subprocess.run([sys.executable, "-m", "mc.runner", pid, "--replay", path],
                                       cwd=VERIF, env=env, capture_output=True, text=True,
                                       timeout=getattr(mod, "REPLAY_TIMEOUT", 300))
                    confirmed = (r.returncode != 0)
                except subprocess.TimeoutExpired:
                    confirmed = True
            if not confirmed and v.get("unit") is not None:
                # not reproduced by the single case: the failure may depend on the calls made before it in
                # the same unit (state leaking between calls). Re-run the whole unit in a fresh process.
                path = write_replay(pid, v, tier, seed, history_dependent=True)
                try:
                    r = subprocess.run([sys.executable, "-m", "mc.runner", pid, "--replay", path],
                                       cwd=VERIF, env=env, capture_output=True, text=True,
                                       timeout=getattr(mod, "UNIT_REPLAY_TIMEOUT", 1800))
                    confirmed = (r.returncode != 0)
                except subprocess.TimeoutExpired:
                    confirmed = key.startswith("unit:hang")
                if confirmed and not key.startswith(("unit:", "result-overwritten:")):
                    history_dep.append(key)
        if confirmed:
            nv += 1
            viol_lines.append("VIOLATION property=%s replay=%s" % (pid, path))
            viol_lines.append("  key=%s n=%d%s: %s" % (key, len(lst), " [history-dependent: reproduced by re-running its unit from the start in a fresh process, not by the case alone]" if key in history_dep else "", v["msg"][:600]))
        else:
            flaky.append("FLAKY property=%s key=%s replay=%s (did not fail again in a fresh process)" % (pid, key, path))

    for kf, keys in known_hits.values():
        known_lines.append("KNOWN-FINDING: property=%s %s [%d finding key(s): %s]" % (
            pid, kf["what"], len(keys), ", ".join(keys[:30])))
    cov = dict(
        evaluations=res.evaluations,
        distinct_nontrivial=res.nontrivial,
        rule=mod.RULE,
        samples=res.samples[:6] if res.samples else [],
        exhaustive=(not res.incomplete and not filtered),
        distinct_outcomes=len(res.outcomes),
        counters=dict(sorted(res.counters.items())),
        units=len(units),
        bound=getattr(mod, "bound_text", lambda t, s: "")(tier, seed),
        violations_total=res.nviol,
        violation_keys=sorted(res.violations),
        incomplete=res.incomplete[:5],
        build_dir=os.path.basename(bdir),
        pyx_changed_not_rebuilt=os.path.exists(os.path.join(bdir, "PYX_CHANGED")),
    )
    if res.states or res.transitions:
        cov["states"] = res.states
        cov["transitions"] = res.transitions
        cov["traces_validated_against_impl"] = res.traces
    ev = dict(property_id=pid, tier=tier if tier in ("quick", "thorough") else "quick",
              seed=seed, level="model_checking", coverage=cov,
              assumptions=list(mod.ASSUMPTIONS), wall_s=round(wall, 2),
              violations=nv)
    if not cov["samples"]:
        cov["samples"] = ["(no case executed)"]
    evpath = os.path.join(VERIF, "evidence", "%s.json" % pid)
    if os.path.realpath(repo) != "/repo" or filtered:
        # scratch worktree / filtered debug run: never overwrite the real evidence
        evpath = os.path.join(VERIF, "build", "evidence-scratch", "%s.json" % pid)
        os.makedirs(os.path.dirname(evpath), exist_ok=True)
    try:
        validate_evidence(ev)
    except Exception as e:      # schema failure = harness failure
        print("HARNESS ERROR: evidence does not validate: %s" % str(e)[:500])
        with open(evpath, "w") as f:
            json.dump(ev, f, indent=1, default=repr)
        return 2
    os.makedirs(os.path.dirname(evpath), exist_ok=True)
    with open(evpath + ".tmp", "w") as f:
        json.dump(ev, f, indent=1, sort_keys=True, default=repr)
    os.replace(evpath + ".tmp", evpath)

    print("%s tier=%s seed=%d units=%d evaluations=%d nontrivial=%d outcomes=%d%s wall=%.1fs" % (
        pid, tier, seed, len(units), res.evaluations, res.nontrivial, len(res.outcomes),
        (" states=%d transitions=%d traces=%d" % (res.states, res.transitions, res.traces))
        if res.states else "", wall))
    for k, v in sorted(res.counters.items()):
        print("  counter %-40s %d" % (k, v))
    for l in known_lines:
        print(l)
    for l in viol_lines:
        print(l)
    for l in flaky:
        print(l)
    if res.incomplete or filtered:
        for r in res.incomplete[:5]:
            print("INCOMPLETE: %s" % r[:2000])
    if nv:
        return 1
    if flaky or res.incomplete:
        return 2
    if res.evaluations == 0:
        print("HARNESS ERROR: nothing explored")
        return 2
    return 0


if __name__ == "__main__":
    sys.exit(main(sys.argv[1:]))
