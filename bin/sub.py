#!/usr/bin/env python3
"""Line-ending preserving exact replacement: sub.py FILE <<EOF  old ... \n=====\n new ... EOF
(dev helper used to edit CRLF sources in /repo without rewriting every line)"""
import sys
p = sys.argv[1]
spec = sys.stdin.read()
old, new = spec.split("\n=====\n")
if new.endswith("\n"):
    new = new[:-1]
raw = open(p, "rb").read()
crlf = b"\r\n" in raw
o, n = old.encode(), new.encode()
if crlf:
    o, n = o.replace(b"\n", b"\r\n"), n.replace(b"\n", b"\r\n")
cnt = raw.count(o)
if cnt != 1:
    sys.exit("sub.py: old text found %d times in %s" % (cnt, p))
open(p, "wb").write(raw.replace(o, n))
